------------------------------ MODULE MxTrace ------------------------------
(***************************************************************************)
(* Property layer, part 2: executions of the REAL modelx judged by TLC.     *)
(*                                                                         *)
(* A batch file holds many recorded executions.  Each is                   *)
(*    [hdr |-> [init |-> <definitions>, ...], ev |-> <<event, ...>>]       *)
(* One TLA+ step consumes one event: the definitions D are updated from    *)
(* the logged ARGUMENTS of the operation by the rules below (they never    *)
(* look at what the code did), the cache / graph / flags are BOUND to the  *)
(* logged post state, and every property predicate is evaluated on         *)
(* (pre state, event, post state).  Predicates never disable a step: a     *)
(* trace is always consumed to its end and every property that failed is   *)
(* reported with the first line where it failed.                           *)
(***************************************************************************)
EXTENDS MxProps, Json, IOUtils, TLCExt

Traces == JsonDeserialize(IOEnv.TRACE_FILE)

VARIABLES tid,     \* which trace of the batch
          l,       \* next event to consume
          D,       \* definitions (property-layer state, evolves by the rules here)
          data,    \* held values as logged after the previous event
          pdefs,   \* definitions as the code reported them after the previous event
          taint,   \* held elements computed while swallowing a callee's failure (KF1)
          poison,  \* TRUE after known finding KF4 left the model half-updated: the rest of
                   \* this trace can no longer be related to the definitions
          viol     \* set of <<label, event index>>
tvars == <<tid, l, D, data, pdefs, taint, poison, viol>>

Tr     == Traces[tid]
NEv    == Len(Tr.ev)
Ev     == Tr.ev[l]
Opt(r, f, d) == IF f \in DOMAIN r THEN r[f] ELSE d

-----------------------------------------------------------------------------
(* How an accepted edit changes the definitions.                           *)

CtxOfC(c)    == <<c[1], c[2]>>
KeyOf(DD, c, args) == Bind(FRec(DD, CellRecOf(DD, CtxOfC(c), c[3])).ps, args)
NodeOfEv(DD, e)    == <<e.c[1], e.c[2], e.c[3], KeyOf(DD, e.c, e.args)>>

\* inputs that belong to cells object (static space s, name c) or to any
\* cells that derives its definition from it
OwnedInputs(DD, s, c) ==
    {n \in DOMAIN DD.inp :
        /\ n[3] = c
        /\ LET b == CtxBase(DD, <<n[1], n[2]>>) IN
           b = s \/ (c \in ENames(DD, b, "cells") /\ Definer(DD, b, "cells", c) = s)}

\* (the copies that derived the cells from s before the edit, and -- when the edit turns a
\*  derived cells of s into an override -- the copies that derive it from s afterwards)
SetCellsField(DD, s, c, rec) ==
    LET D1 == [DD EXCEPT !.cells[s] = Upd(@, c, rec)] IN
    [D1 EXCEPT !.inp = Drop(@, OwnedInputs(DD, s, c) \cup OwnedInputs(D1, s, c))]

ReplacePrefix(p, old, new) ==
    IF IsPrefix(old, p) THEN new \o SubSeq(p, Len(old) + 1, Len(p)) ELSE p

\* inputs can only disappear under structural edits; which of them do is not
\* fixed by any property, so the logged survivors are adopted
AdoptInputs(DD, e) ==
    LET logged == Range(e.post.inputs) IN
    [DD EXCEPT !.inp = Drop(@, {n \in DOMAIN @ : n \notin logged \/ ~NodeExists(DD, n)})]

\* the cells an element operation names exists in the definitions (on a broken tree the
\* library may still serve an object whose definition is gone: the verdict stays total)
CellMissing(e) == /\ CtxExists(D, <<e.c[1], e.c[2]>>)
                  /\ e.c[3] \notin ENames(D, CtxBase(D, <<e.c[1], e.c[2]>>), "cells")

DAfterOK(e) ==
    CASE e.op = "set_value" ->
            IF CellMissing(e) THEN D ELSE
            [D EXCEPT !.inp = Upd(@, NodeOfEv(D, e), e.v)]
      [] e.op = "clear_at" ->
            IF CellMissing(e) THEN D ELSE
            [D EXCEPT !.inp = Drop(@, {NodeOfEv(D, e)})]
      [] e.op = "clear" -> D
      [] e.op = "clear_all" ->
            [D EXCEPT !.inp = Drop(@, {n \in DOMAIN @ :
                                  <<n[1], n[2], n[3]>> = <<e.c[1], e.c[2], e.c[3]>>})]
      [] e.op = "set_ref" ->
            IF Len(e.s) = 0
            THEN [D EXCEPT !.grefs = Upd(@, e.n, [v |-> e.v, mode |-> "auto"])]
            ELSE [D EXCEPT !.refs[e.s] = Upd(@, e.n, [v |-> e.v, mode |-> e.mode])]
      [] e.op = "del_ref" ->
            IF Len(e.s) = 0
            THEN [D EXCEPT !.grefs = Drop(@, {e.n})]
            ELSE [D EXCEPT !.refs[e.s] = Drop(@, {e.n})]
      [] e.op = "set_formula" ->
            SetCellsField(D, e.s, e.c,
                [EMember(D, e.s, "cells", e.c) EXCEPT !.f = e.f])
      [] e.op = "set_cached" ->
            \* assigning the current flag is a no-op (it does not turn a derived cells into a defined one)
            IF EMember(D, e.s, "cells", e.c).cached = e.b THEN D
            ELSE SetCellsField(D, e.s, e.c,
                    [EMember(D, e.s, "cells", e.c) EXCEPT !.cached = e.b])
      [] e.op = "set_allow_none" ->
            IF "c" \in DOMAIN e
            THEN [D EXCEPT !.cells[e.s] = Upd(@, e.c,
                     [EMember(D, e.s, "cells", e.c) EXCEPT !.an = e.v])]
            ELSE IF Len(e.s) = 0 THEN [D EXCEPT !.an = (e.v = 2)]
            ELSE [D EXCEPT !.span[e.s] = e.v]
      [] e.op = "new_cells" ->
            \* ("created": the name modelx actually gave the cells when the
            \*  requested one was not usable as a name)
            AdoptInputs([D EXCEPT !.cells[e.s] = Upd(@, Opt(e, "created", e.c),
                            [f |-> e.rec.f, cached |-> e.rec.cached, an |-> e.rec.an])], e)
      [] e.op = "del_cells" ->
            \* the defined cells OBJECT is gone: references to it go dead even when the
            \* space derives a cells of the same name from a base right away
            LET Kd(v) == IF v = CeObj(e.s, <<>>, e.c) THEN DeadCe ELSE v IN
            AdoptInputs([D EXCEPT !.cells[e.s] = Drop(@, {e.c}),
                  !.refs  = [s \in DOMAIN @ |-> [n \in DOMAIN @[s] |-> [@[s][n] EXCEPT !.v = Kd(@)]]],
                  !.grefs = [n \in DOMAIN @ |-> [@[n] EXCEPT !.v = Kd(@)]]], e)
      [] e.op = "rename_cells" ->
            \* the defined cells object lives on under the new name; the copies sub
            \* spaces derived from it are deleted and derived anew (handles to them die)
            LET Rn(v) == IF v[1] = "ce" /\ v[3] = <<>> /\ v[4] = e.c /\ v[2] = e.s
                         THEN CeObj(v[2], <<>>, e.c2) ELSE v IN
            IF e.s \notin D.sp \/ e.c \notin DOMAIN D.cells[e.s] THEN D   \* (only a defined cells is renamed)
            ELSE
            AdoptInputs([D EXCEPT !.cells[e.s] = Upd(Drop(@, {e.c}), e.c2, D.cells[e.s][e.c]),
                  !.refs  = [s \in DOMAIN @ |-> [n \in DOMAIN @[s] |-> [@[s][n] EXCEPT !.v = Rn(@)]]],
                  !.grefs = [n \in DOMAIN @ |-> [@[n] EXCEPT !.v = Rn(@)]]], e)
      [] e.op = "new_space" ->
            AdoptInputs([D EXCEPT !.sp = @ \cup {e.p},
                                  !.bases = Upd(@, e.p, Opt(e, "bases", <<>>)),
                                  !.cells = Upd(@, e.p, <<>>),
                                  !.refs  = Upd(@, e.p, IF "refs" \in DOMAIN e THEN e.refs ELSE <<>>),
                                  !.span  = Upd(@, e.p, 0)], e)
      [] e.op = "del_space" ->
            LET gone == Subtree(D, e.p)
                keep == D.sp \ gone IN
            AdoptInputs([D EXCEPT !.sp = keep,
                  !.bases = [s \in keep |-> SelectSeq(D.bases[s], LAMBDA b : b \notin gone)],
                  !.cells = Drop(@, gone), !.refs = Drop(@, gone),
                  !.span = Drop(@, gone), !.pf = Drop(@, gone)], e)
      [] e.op = "rename_space" ->
            LET new == Append(Front(e.p), e.nm)
                R(p) == ReplacePrefix(p, e.p, new)
                nsp == {R(p) : p \in D.sp}
                Rv(v) == IF v[1] \in {"sp", "ce"} THEN <<v[1], R(v[2]), v[3], v[4]>> ELSE v
                Old(q) == CHOOSE p \in D.sp : R(p) = q IN
            AdoptInputs([D EXCEPT !.sp = nsp,
                  !.bases = [q \in nsp |-> [i \in 1..Len(D.bases[Old(q)]) |-> R(D.bases[Old(q)][i])]],
                  !.cells = [q \in nsp |-> D.cells[Old(q)]],
                  !.refs  = [q \in nsp |-> [n \in DOMAIN D.refs[Old(q)] |->
                                 [D.refs[Old(q)][n] EXCEPT !.v = Rv(@)]]],
                  !.grefs = [n \in DOMAIN @ |-> [@[n] EXCEPT !.v = Rv(@)]],
                  !.span  = [q \in nsp |-> D.span[Old(q)]],
                  !.pf    = [q \in {R(p) : p \in DOMAIN D.pf} |-> D.pf[Old(q)]]], e)
      [] e.op = "add_bases" ->
            \* (re-adding an existing base moves it to the end of the order)
            AdoptInputs([D EXCEPT !.bases[e.s] =
                            SelectSeq(@, LAMBDA b : b \notin Range(e.bs)) \o e.bs], e)
      [] e.op = "remove_bases" ->
            AdoptInputs([D EXCEPT !.bases[e.s] =
                            SelectSeq(@, LAMBDA b : b \notin Range(e.bs))], e)
      [] e.op = "set_pf" ->
            AdoptInputs(IF "f" \in DOMAIN e THEN [D EXCEPT !.pf = Upd(@, e.s, e.f)]
                        ELSE [D EXCEPT !.pf = Drop(@, {e.s})], e)
      [] OTHER -> D

Structural(e) == e.op \in {"new_cells", "del_cells", "rename_cells", "new_space", "del_space",
                            "rename_space", "add_bases", "remove_bases", "set_formula"}
Accepted(e) == IF e.op = "call" THEN TRUE ELSE e.res = "ok"
\* values assigned inside ItemSpaces live as long as the instance does; when an
\* instance is discarded is constrained by C07 (never stale), not by C06, so the
\* survivors logged by the code are adopted (they can only disappear)
DynAdopt(DD, e) ==
    LET logged == Range(e.post.inputs) IN
    [DD EXCEPT !.inp = Drop(@, {n \in DOMAIN @ : Len(n[2]) > 0 /\ n \notin logged})]
DAfter(e)   == IF e.op = "call" THEN DynAdopt(D, e)
               ELSE IF ~Accepted(e) THEN D
               ELSE IF Structural(e) THEN DynAdopt(KillDangling(DAfterOK(e)), e)
               ELSE DynAdopt(DAfterOK(e), e)

\* events after which the surviving inputs are fixed by the properties
InputsDetermined(e) ==
    e.op \in {"call", "set_value", "clear_at", "clear", "clear_all", "set_ref",
              "del_ref", "set_formula", "set_cached", "set_allow_none",
              "set_recalc", "write_read", "get_item"} \/ ~Accepted(e)

-----------------------------------------------------------------------------
(* Binding of a logged event to the property predicates of MxProps.        *)

DataL(e)   == PairsToFun(e.post.data)
InputsL(e) == Range(e.post.inputs)
TgN(e)     == Range(e.post.tgn)
TgE(e)     == {<<x[1], x[2]>> : x \in Range(e.post.tge)}
IdleL(e)   == /\ e.post.exec.stack = 0 /\ e.post.exec.refstack = 0 /\ e.post.exec.idx = 0
              /\ e.post.exec.counter = 0 /\ ~e.post.exec.executing
Tag        == <<tid, l>>

TaintAfter(e, D2) ==
    LET held == DOMAIN DataL(e) IN
    TaintClosure(D2, held, (taint \cup Swallowers(D, e.fx)) \cap held)

\* KNOWN FINDING KF4: a structural edit (remove_bases, del_ref, del_space, del_cells,
\* rename, ...) after which some space would derive a reference in RELATIVE mode whose
\* target cannot be re-bound inside that space raises "Relative reference ... out of
\* scope" in the middle of the update and leaves the model half-updated.
UnbindableIn(DD) ==
    \E s \in DD.sp : \E n \in ENames(DD, s, "refs") :
        LET b == Definer(DD, s, "refs", n)
            r == DD.refs[b][n] IN
        /\ b # s /\ r.mode = "relative" /\ r.v[1] \in {"sp", "ce"}
        /\ RelTarget(DD, s, b, IF r.v[1] = "ce" THEN Append(r.v[2], r.v[4]) ELSE r.v[2]) = Fail
HalfUpdated(e) ==
    /\ e.op # "call"
    /\ ~Accepted(e)
    /\ (Structural(e) \/ e.op \in {"del_ref", "set_ref"})
    /\ Opt(e, "errtype", "") = "ValueError"
    /\ "defs" \in DOMAIN e.post
    /\ e.post.defs # pdefs
    /\ LET DH == KillDangling(DAfterOK(e)) IN WellFormed(DH) /\ UnbindableIn(DH)

EventViol(e, D2, ta) ==
    LET dl == DataL(e) IN
    IF e.op = "call"
    THEN IF NodeExists(D, <<e.c[1], e.c[2], e.c[3], <<>>>>)
         THEN CallLabels(Tag, D, NodeOfEv(D, e), e.res, data, dl, e.fx,
                         Opt(Tr.hdr, "maxdepth", 0),
                         \* (KF1) the result of an element that holds nothing itself -- an
                         \* uncached cells -- is tainted when it consumed a tainted value
                         IF CalledThroughAny(D, NodeOfEv(D, e)) \cap (taint \cup ta) # {}
                         THEN ta \cup {NodeOfEv(D, e)} ELSE ta)
              \cup (IF "tb" \in DOMAIN e THEN TracebackLabels(Tag, e.res, IF "tbx" \in DOMAIN e THEN e.tbx ELSE ChainOf(e.fx), e.tb) ELSE {})
         \* a cells that the definitions do not have (in a space they do have) answered with a value
         ELSE IF CellMissing(e) THEN Lbl(IsErr(e.res), "C01.Transparent") ELSE {}
    ELSE IF ~Accepted(e)
    THEN RejectedLabels(Tag, pdefs, IF "defs" \in DOMAIN e.post THEN e.post.defs ELSE pdefs, data, dl)
         \* (a quietly observed history reports no definitions between its operations)
    ELSE IF e.op = "write_read"
    THEN WriteReadLabels(Tag, D2, e, pdefs, data, dl)
    ELSE IF e.op \in {"set_value", "clear_at"} /\ CellMissing(e)
    THEN Lbl(FALSE, "C13.NoResidue")      \* an edit of an object whose definition is gone was accepted
    ELSE IF e.op \in {"set_value", "clear_at"}
    THEN ValueEditLabels(Tag, D, D2, e.op = "set_value", NodeOfEv(D, e), data, dl, e.fx,
                         Opt(Tr.hdr, "recalc", FALSE), taint)
    ELSE {}

AllViol(e, D2, ta) ==
    StateLabels(Tag, D2, DataL(e), InputsL(e), TgN(e), TgE(e), IdleL(e), e.post.sane,
                InputsDetermined(e), ta)
    \cup (IF "deps" \in DOMAIN e.post
          THEN DepsLabels(Tag, D2, InputsL(e),
                          {<<r[1], Range(r[2]), Range(r[3])>> : r \in Range(e.post.deps)},
                          ta)
          ELSE {})
    \cup (IF "defs" \in DOMAIN e.post /\ Opt(Tr.hdr, "checkdefs", FALSE)
          THEN DefsLabels(Tag, D2, e.post.defs) ELSE {})
    \cup (IF "handles" \in DOMAIN e.post
          THEN HandleLabels(Tag, D2, Range(e.post.handles)) ELSE {})
    \cup (IF "items" \in DOMAIN e.post
          THEN ItemLabels(Tag, D, D2, e, Range(e.post.items)) ELSE {})
    \cup EventViol(e, D2, ta)

-----------------------------------------------------------------------------
TInit ==
    /\ tid \in 1..Len(Traces)
    /\ l = 1
    /\ D = DefsOf(Traces[tid].hdr.init)
    /\ data = <<>>
    /\ pdefs = Traces[tid].hdr.pdefs
    /\ viol = {} /\ taint = {} /\ poison = FALSE
    /\ TLCSet(tid, <<0, {}>>)

TNext ==
    /\ l <= NEv
    /\ LET e == Ev
           half == ~poison /\ HalfUpdated(e)
           D2 == DAfter(e)
           ta == IF poison \/ half THEN {} ELSE TaintAfter(e, D2)
           new == IF poison THEN {}
                  ELSE IF half THEN {"KF:C11.relative-unbindable-midway"}
                  ELSE AllViol(e, D2, ta)
           known == {v[1] : v \in viol} IN
       /\ viol' = viol \cup {<<x, l>> : x \in new \ known}
       /\ D' = IF poison \/ half THEN D ELSE D2
       /\ data' = DataL(e)
       /\ taint' = ta
       /\ poison' = (poison \/ half)
       /\ pdefs' = IF "defs" \in DOMAIN e.post THEN e.post.defs ELSE pdefs
    /\ l' = l + 1
    /\ tid' = tid

TSpec == TInit /\ [][TNext]_tvars

Progress == IF l - 1 >= TLCGet(tid)[1] THEN TLCSet(tid, <<l - 1, viol>>) ELSE TRUE

Verdicts ==
    \A t \in 1..Len(Traces) :
        PrintT(<<"VERDICT", t, TLCGet(t)[1], Len(Traces[t].ev), TLCGet(t)[2]>>)
=============================================================================
