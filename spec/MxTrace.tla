------------------------------ MODULE MxTrace ------------------------------
(***************************************************************************)
(* Property layer, part 2: executions of the REAL modelx judged by TLC.     *)
(*                                                                         *)
(* A batch file holds many recorded executions.  Each is                   *)
(*    [hdr |-> [init |-> <definitions>, ...], ev |-> <<event, ...>>]       *)
(* One TLA+ step consumes one event: the definitions D are updated from    *)
(* the logged ARGUMENTS of the operation by the rules below (they never    *)
(* look at what the code did), the cache / graph / flags are BOUND to the  *)
(* logged post state, and every property predicate is evaluated on         *)
(* (pre state, event, post state).  Predicates never disable a step: a     *)
(* trace is always consumed to its end and every property that failed is   *)
(* reported with the first line where it failed.                           *)
(***************************************************************************)
EXTENDS MxSem, Json, IOUtils, TLCExt

Traces == JsonDeserialize(IOEnv.TRACE_FILE)

VARIABLES tid,     \* which trace of the batch
          l,       \* next event to consume
          D,       \* definitions (property-layer state, evolves by the rules here)
          data,    \* held values as logged after the previous event
          pdefs,   \* definitions as the code reported them after the previous event
          viol     \* set of <<label, event index>>
tvars == <<tid, l, D, data, pdefs, viol>>

Tr     == Traces[tid]
NEv    == Len(Tr.ev)
Ev     == Tr.ev[l]
Opt(r, f, d) == IF f \in DOMAIN r THEN r[f] ELSE d

DefsOf(j) ==
    [ sp    |-> Range(j.sp),
      bases |-> PairsToFun(j.bases),
      cells |-> PairsToFun(j.cells),
      refs  |-> PairsToFun(j.refs),
      grefs |-> j.grefs,
      pf    |-> PairsToFun(j.pf),
      inp   |-> PairsToFun(j.inp),
      an    |-> j.an,
      span  |-> PairsToFun(j.span),
      flib  |-> j.flib ]

-----------------------------------------------------------------------------
(* How an accepted edit changes the definitions.                           *)

CtxOfC(c)    == <<c[1], c[2]>>
KeyOf(DD, c, args) == Bind(FRec(DD, CellRecOf(DD, CtxOfC(c), c[3])).ps, args)
NodeOfEv(DD, e)    == <<e.c[1], e.c[2], e.c[3], KeyOf(DD, e.c, e.args)>>

\* inputs that belong to cells object (static space s, name c) or to any
\* cells that derives its definition from it
OwnedInputs(DD, s, c) ==
    {n \in DOMAIN DD.inp :
        /\ n[3] = c
        /\ LET b == CtxBase(DD, <<n[1], n[2]>>) IN
           b = s \/ (c \in ENames(DD, b, "cells") /\ Definer(DD, b, "cells", c) = s)}

SetCellsField(DD, s, c, rec) ==
    [DD EXCEPT !.cells[s] = Upd(@, c, rec),
               !.inp = Drop(@, OwnedInputs(DD, s, c))]

ReplacePrefix(p, old, new) ==
    IF IsPrefix(old, p) THEN new \o SubSeq(p, Len(old) + 1, Len(p)) ELSE p

\* inputs can only disappear under structural edits; which of them do is not
\* fixed by any property, so the logged survivors are adopted
AdoptInputs(DD, e) ==
    LET logged == Range(e.post.inputs) IN
    [DD EXCEPT !.inp = Drop(@, {n \in DOMAIN @ : n \notin logged \/ ~NodeExists(DD, n)})]

DAfterOK(e) ==
    CASE e.op = "set_value" ->
            [D EXCEPT !.inp = Upd(@, NodeOfEv(D, e), e.v)]
      [] e.op = "clear_at" ->
            [D EXCEPT !.inp = Drop(@, {NodeOfEv(D, e)})]
      [] e.op = "clear" -> D
      [] e.op = "clear_all" ->
            [D EXCEPT !.inp = Drop(@, {n \in DOMAIN @ :
                                  <<n[1], n[2], n[3]>> = <<e.c[1], e.c[2], e.c[3]>>})]
      [] e.op = "set_ref" ->
            IF Len(e.s) = 0
            THEN [D EXCEPT !.grefs = Upd(@, e.n, [v |-> e.v, mode |-> "auto"])]
            ELSE [D EXCEPT !.refs[e.s] = Upd(@, e.n, [v |-> e.v, mode |-> e.mode])]
      [] e.op = "del_ref" ->
            IF Len(e.s) = 0
            THEN [D EXCEPT !.grefs = Drop(@, {e.n})]
            ELSE [D EXCEPT !.refs[e.s] = Drop(@, {e.n})]
      [] e.op = "set_formula" ->
            SetCellsField(D, e.s, e.c,
                [EMember(D, e.s, "cells", e.c) EXCEPT !.f = e.f])
      [] e.op = "set_cached" ->
            SetCellsField(D, e.s, e.c,
                [EMember(D, e.s, "cells", e.c) EXCEPT !.cached = e.b])
      [] e.op = "set_allow_none" ->
            IF "c" \in DOMAIN e
            THEN [D EXCEPT !.cells[e.s] = Upd(@, e.c,
                     [EMember(D, e.s, "cells", e.c) EXCEPT !.an = e.v])]
            ELSE IF Len(e.s) = 0 THEN [D EXCEPT !.an = (e.v = 2)]
            ELSE [D EXCEPT !.span[e.s] = e.v]
      [] e.op = "new_cells" ->
            AdoptInputs([D EXCEPT !.cells[e.s] = Upd(@, e.c,
                            [f |-> e.rec.f, cached |-> e.rec.cached, an |-> e.rec.an])], e)
      [] e.op = "del_cells" ->
            AdoptInputs([D EXCEPT !.cells[e.s] = Drop(@, {e.c})], e)
      [] e.op = "rename_cells" ->
            AdoptInputs([D EXCEPT !.cells[e.s] =
                            Upd(Drop(@, {e.c}), e.c2, D.cells[e.s][e.c])], e)
      [] e.op = "new_space" ->
            AdoptInputs([D EXCEPT !.sp = @ \cup {e.p},
                                  !.bases = Upd(@, e.p, Opt(e, "bases", <<>>)),
                                  !.cells = Upd(@, e.p, <<>>),
                                  !.refs  = Upd(@, e.p, <<>>),
                                  !.span  = Upd(@, e.p, 0)], e)
      [] e.op = "del_space" ->
            LET gone == Subtree(D, e.p)
                keep == D.sp \ gone IN
            AdoptInputs([D EXCEPT !.sp = keep,
                  !.bases = [s \in keep |-> SelectSeq(D.bases[s], LAMBDA b : b \notin gone)],
                  !.cells = Drop(@, gone), !.refs = Drop(@, gone),
                  !.span = Drop(@, gone), !.pf = Drop(@, gone)], e)
      [] e.op = "rename_space" ->
            LET new == Append(Front(e.p), e.nm)
                R(p) == ReplacePrefix(p, e.p, new)
                nsp == {R(p) : p \in D.sp}
                Old(q) == CHOOSE p \in D.sp : R(p) = q IN
            AdoptInputs([D EXCEPT !.sp = nsp,
                  !.bases = [q \in nsp |-> [i \in 1..Len(D.bases[Old(q)]) |-> R(D.bases[Old(q)][i])]],
                  !.cells = [q \in nsp |-> D.cells[Old(q)]],
                  !.refs  = [q \in nsp |-> D.refs[Old(q)]],
                  !.span  = [q \in nsp |-> D.span[Old(q)]],
                  !.pf    = [q \in {R(p) : p \in DOMAIN D.pf} |-> D.pf[Old(q)]]], e)
      [] e.op = "add_bases" ->
            AdoptInputs([D EXCEPT !.bases[e.s] = @ \o e.bs], e)
      [] e.op = "remove_bases" ->
            AdoptInputs([D EXCEPT !.bases[e.s] =
                            SelectSeq(@, LAMBDA b : b \notin Range(e.bs))], e)
      [] e.op = "set_pf" ->
            AdoptInputs(IF "f" \in DOMAIN e THEN [D EXCEPT !.pf = Upd(@, e.s, e.f)]
                        ELSE [D EXCEPT !.pf = Drop(@, {e.s})], e)
      [] OTHER -> D

Accepted(e) == IF e.op = "call" THEN TRUE ELSE e.res = "ok"
DAfter(e)   == IF e.op = "call" \/ ~Accepted(e) THEN D ELSE DAfterOK(e)

\* events after which the surviving inputs are fixed by the properties
InputsDetermined(e) ==
    e.op \in {"call", "set_value", "clear_at", "clear", "clear_all", "set_ref",
              "del_ref", "set_formula", "set_cached", "set_allow_none",
              "set_recalc"} \/ ~Accepted(e)

-----------------------------------------------------------------------------
(* Formula-execution log helpers.                                          *)

Fx(e)         == e.fx
Enters(e)     == {Fx(e)[i][2] : i \in {j \in 1..Len(Fx(e)) : Fx(e)[j][1] = "enter"}}
ExitIdx(e)    == {j \in 1..Len(Fx(e)) : Fx(e)[j][1] = "exit"}
EnterIdx(e)   == {j \in 1..Len(Fx(e)) : Fx(e)[j][1] = "enter"}
UnwindIdx(e)  == {j \in 1..Len(Fx(e)) : Fx(e)[j][1] = "unwind"}

\* nodes whose formula was left by an exception (they must hold no value)
Unwound(e)    == {Fx(e)[j][2] : j \in UnwindIdx(e)}
\* number of trailing unwind records = depth of the chain the escaping
\* exception travelled through
RECURSIVE TrailUnw(_, _)
TrailUnw(e, j) == IF j >= 1 /\ Fx(e)[j][1] = "unwind" THEN 1 + TrailUnw(e, j - 1) ELSE 0
\* maximal simultaneous depth of formula frames during the event
RECURSIVE DepthAt(_, _)
DepthAt(e, j) == IF j = 0 THEN 0
                 ELSE DepthAt(e, j - 1) + (IF Fx(e)[j][1] = "enter" THEN 1 ELSE -1)
MaxDepth(e)   == IF Len(Fx(e)) = 0 THEN 0
                 ELSE LET S == {DepthAt(e, j) : j \in 1..Len(Fx(e))} IN
                      CHOOSE x \in S : \A y \in S : y <= x

\* expected traceback, outermost first: the frames the escaping exception
\* unwound, each with the line it was at
ChainOf(e) ==
    LET k == TrailUnw(e, Len(Fx(e)))
        n == Len(Fx(e)) IN
    [i \in 1..k |-> <<Fx(e)[n - i + 1][2], Fx(e)[n - i + 1][4]>>]

-----------------------------------------------------------------------------
(* Graph helpers on the logged dependency graph.                           *)

RECURSIVE ReachFrom(_, _, _)
ReachFrom(E, front, seen) ==
    LET nxt == {x[2] : x \in {y \in E : y[1] \in front}} \ seen IN
    IF nxt = {} THEN seen ELSE ReachFrom(E, nxt, seen \cup nxt)
GraphAcyclic(N, E) == \A n \in N : n \notin ReachFrom(E, {n}, {})

-----------------------------------------------------------------------------
(* The property predicates.  Each yields a set of labels (empty = holds).  *)

DataL(e)   == PairsToFun(e.post.data)
InputsL(e) == Range(e.post.inputs)
TgN(e)     == Range(e.post.tgn)
TgE(e)     == {<<x[1], x[2]>> : x \in Range(e.post.tge)}

Lbl(b, s) == IF b THEN {} ELSE {s}

\* predicates on the quiescent state after any event; D2 = definitions after it
StateViol(e, D2) ==
    LET dl == DataL(e)
        il == InputsL(e)
        held == DOMAIN dl
        alive == {n \in held : NodeExists(D2, n)}
        calc  == alive \ il
        cellnodes == {n \in TgN(e) : n[3] # "" /\ n[4] # ObjKey}
    IN
      Lbl(held = alive, "C13.NoResidue")
      \cup Lbl(\A n \in calc : dl[n] = Den(D2, n), "C02.NoStale")
      \cup Lbl(\A n \in alive : IsCachedNode(D2, n), "C09.UncachedHoldNothing")
      \cup Lbl(InputsDetermined(e) => il = DOMAIN D2.inp, "C06.InputsPersist")
      \cup Lbl(\A n \in il \cap DOMAIN D2.inp : n \in held /\ dl[n] = D2.inp[n], "C06.InputWins")
      \cup Lbl(cellnodes = held, "C08.GraphEqCache")
      \cup Lbl(GraphAcyclic(TgN(e), TgE(e)), "C08.Acyclic")
      \cup Lbl(\A x \in TgE(e) : x[1] \in TgN(e) /\ x[2] \in TgN(e), "C08.EdgesInNodes")
      \cup Lbl(e.post.exec.stack = 0 /\ e.post.exec.refstack = 0 /\ e.post.exec.idx = 0
               /\ e.post.exec.counter = 0 /\ ~e.post.exec.executing, "C05.ExecutorIdle")
      \cup Lbl(e.post.sane, "C12.SanityChecks")

\* dependency listings reported by preds()/succs() for every computed element
DepsViol(e, D2) ==
    LET il == InputsL(e)
        rows == {r \in Range(e.post.deps) : NodeExists(D2, r[1]) /\ r[1] \notin il}
        PredsOf(r) == Range(r[2])
        SuccsOf(r) == Range(r[3])
    IN
      Lbl(\A r \in rows : PredsOf(r) = GraphPreds(D2, r[1]), "C08.PredsExact")
      \cup Lbl(\A r \in rows : \A q \in rows :
                 (r[1] \in PredsOf(q)) <=> (q[1] \in SuccsOf(r)), "C08.SuccsInverse")

CallViol(e, D2) ==
    LET n    == NodeOfEv(D, e)
        exp  == Den(D, n)
        dl   == DataL(e)
        cachedT == IsCachedNode(D, n)
        deep == e.res = ErrDeep
        \* a DeepReferenceError is history dependent by design: it is legitimate
        \* exactly when the chain of executing formulas reached the limit
        deepOK == "maxdepth" \in DOMAIN Tr.hdr /\ MaxDepth(e) >= Tr.hdr.maxdepth + 1
    IN
      Lbl(IF deep THEN deepOK ELSE e.res = exp, "C01.Transparent")
      \cup Lbl(\A m \in Enters(e) : IsCachedNode(D, m) => m \notin DOMAIN data, "C01.ComputedOnce")
      \cup Lbl(\A m \in Enters(e) : IsCachedNode(D, m) =>
                  Cardinality({j \in ExitIdx(e) : Fx(e)[j][2] = m}) <= 1, "C01.ComputedOnceInCall")
      \cup Lbl((cachedT /\ ~IsErr(e.res)) => (n \in DOMAIN dl /\ dl[n] = e.res), "C01.SameElement")
      \cup Lbl((~cachedT) => n \in Enters(e), "C09.UncachedReexecuted")
      \cup Lbl(IsErr(e.res) => (Unwound(e) \cap DOMAIN dl = {}), "C05.FailedHoldNothing")
      \cup Lbl(\A j \in ExitIdx(e) :
                  LET m == Fx(e)[j][2] IN
                  (IsCachedNode(D, m) /\ m \notin Unwound(e) /\ Fx(e)[j][3] # NoneV)
                      => (m \in DOMAIN dl /\ dl[m] = Fx(e)[j][3]), "C05.CompletedKept")
      \cup Lbl(DOMAIN data \subseteq DOMAIN dl, "C06.CallDiscardsNothing")
      \cup Lbl(\A m \in DOMAIN data \cap DOMAIN dl : dl[m] = data[m], "C06.CallChangesNothing")

TracebackViol(e) ==
    IF ~("tb" \in DOMAIN e) THEN {}
    ELSE LET chain == ChainOf(e)
             tb == e.tb
             \* NoneReturnedError is raised after the formula returned: the
             \* element that returned None closes the listing, without a line
             noneTail == e.res = ErrNone
             want == IF noneTail /\ Len(tb) > 0 THEN Len(chain) + 1 ELSE Len(chain)
         IN
           Lbl(Len(tb) = want, "C17.TracebackLength")
           \cup Lbl(\A i \in 1..Len(chain) : i <= Len(tb) => tb[i][1] = chain[i][1], "C17.TracebackNodes")
           \cup Lbl(\A i \in 1..Len(chain) : i <= Len(tb) => tb[i][2] = chain[i][2], "C17.TracebackLines")

EditViol(e, D2) ==
    LET dl == DataL(e)
        pre == DOMAIN data
    IN
    IF e.op \in {"set_value", "clear_at"} /\ Accepted(e)
    THEN LET n == NodeOfEv(D, e)
             gone == {x \in pre : x # n /\ ~IsInput(D, x) /\ n \in DepsStar(D, x)}
             recalc == Opt(Tr.hdr, "recalc", FALSE)
             want == IF e.op = "set_value" THEN (pre \ gone) \cup {n} ELSE pre \ (gone \cup {n})
         IN
           IF recalc /\ e.op = "set_value"
           THEN Lbl(want \subseteq DOMAIN dl /\
                    \A x \in gone : (~IsErr(Den(D2, x))) => x \in DOMAIN dl, "C06.RecalcEqLazy")
                \cup Lbl(\A x \in (pre \ (gone \cup {n})) \cap DOMAIN dl : dl[x] = data[x], "C06.SurvivorsUnchanged")
           ELSE Lbl(DOMAIN dl = want, "C06.ExactDiscard")
                \cup Lbl(\A x \in (pre \ (gone \cup {n})) \cap DOMAIN dl : dl[x] = data[x], "C06.SurvivorsUnchanged")
                \cup Lbl(Len(e.fx) = 0, "C06.NotRecomputed")
    ELSE IF ~Accepted(e)
    THEN Lbl(e.post.defs = pdefs, "C11.RejectedUnchanged")
         \cup Lbl(DOMAIN dl = pre /\ \A x \in pre : dl[x] = data[x], "C11.RejectedKeepsValues")
    ELSE {}

AllViol(e) ==
    LET D2 == DAfter(e) IN
    StateViol(e, D2)
    \cup (IF "deps" \in DOMAIN e.post THEN DepsViol(e, D2) ELSE {})
    \cup (IF e.op = "call"
          THEN (IF NodeExists(D, <<e.c[1], e.c[2], e.c[3], <<>>>>)
                THEN CallViol(e, D2) \cup TracebackViol(e) ELSE {})
          ELSE EditViol(e, D2))

-----------------------------------------------------------------------------
TInit ==
    /\ tid \in 1..Len(Traces)
    /\ l = 1
    /\ D = DefsOf(Traces[tid].hdr.init)
    /\ data = <<>>
    /\ pdefs = Traces[tid].hdr.pdefs
    /\ viol = {}
    /\ TLCSet(tid, <<0, {}>>)

TNext ==
    /\ l <= NEv
    /\ LET e == Ev
           new == AllViol(e)
           known == {v[1] : v \in viol} IN
       /\ viol' = viol \cup {<<x, l>> : x \in new \ known}
       /\ D' = DAfter(e)
       /\ data' = DataL(e)
       /\ pdefs' = IF "defs" \in DOMAIN e.post THEN e.post.defs ELSE pdefs
    /\ l' = l + 1
    /\ tid' = tid

TSpec == TInit /\ [][TNext]_tvars

Progress == IF l - 1 >= TLCGet(tid)[1] THEN TLCSet(tid, <<l - 1, viol>>) ELSE TRUE

Verdicts ==
    \A t \in 1..Len(Traces) :
        PrintT(<<"VERDICT", t, TLCGet(t)[1], Len(Traces[t].ev), TLCGet(t)[2]>>)
=============================================================================
