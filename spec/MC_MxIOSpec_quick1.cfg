\* one model, modules, modelx objects A and A.c, space deletion: all histories of 3 operations
CONSTANTS
  Models = {"M1"}
  BaseInit = {"M1"}
  Names = {"x", "y"}
  CsvLocs = {"p.csv", "q.csv"}
  ModLocs = {"mo.py"}
  PVals = {1, 2}
  MVals = {3}
  OVals = {101, 102}
  WithDelSpace = TRUE
  WithChild = TRUE
  OpenFindings = {}
  MaxOps = 3
  Dump = TRUE
VIEW View
INIT Init
NEXT Next
INVARIANT Inv_C18_SpecsEqBoundValues
INVARIANT Inv_C18_NoOrphanSpec
INVARIANT Inv_C18_LocationsUnique
INVARIANT Inv_C18_RejectedLeavesNothing
INVARIANT Inv_C18_SanityChecks
INVARIANT Inv_C18_SavedSpecsRoundTrip
INVARIANT Inv_NoRepairedFinding
CHECK_DEADLOCK FALSE
