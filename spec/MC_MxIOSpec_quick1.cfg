\* MC_MxIOSpec_quick1.cfg2
CONSTANTS
  Models = {"M1"}
  BaseInit = {"M1"}
  Names = {"x", "y"}
  CsvLocs = {"p.csv", "q.csv"}
  ModLocs = {"mo.py"}
  PVals = {1, 2}
  MVals = {3}
  WithDelSpace = TRUE
  ExploreTainted = FALSE
  MaxOps = 4
  Dump = TRUE
VIEW View
INIT Init
NEXT Next
INVARIANT Inv_C18_SpecsEqBoundValues
INVARIANT Inv_C18_NoOrphanSpec
INVARIANT Inv_C18_LocationsUnique
INVARIANT Inv_C18_RejectedLeavesNothing
INVARIANT Inv_C18_SanityChecks
INVARIANT Inv_C18_SavedSpecsRoundTrip
CHECK_DEADLOCK FALSE
