CONSTANTS
  MaxSaves = 6
  MaxLoads = 2
  NFiles = 2
  CleanupOnFail = TRUE
  Swallowed = FALSE
  MaxOps = 6
  Dump = TRUE
INIT MCInit
NEXT Next
CONSTRAINT Bound
INVARIANT Inv_C14_LastGoodSafe
CHECK_DEADLOCK FALSE
