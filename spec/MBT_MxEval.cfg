CONSTANTS
  MaxOps = 2
  MaxDepthC = 0
  Pattern = "any"
  Dump = TRUE
INIT Init
NEXT Next
CONSTRAINT Bound
INVARIANT Inv_C02_NoStale
CHECK_DEADLOCK FALSE
