\* one model, two names, one csv location, two pandas values, modelx objects A and A.c (B and B.c as relative copies), space deletion: the COMPLETE reachable state space (histories of any length)
CONSTANTS
  Models = {"M1"}
  BaseInit = {"M1"}
  Names = {"x", "y"}
  CsvLocs = {"p.csv"}
  ModLocs = {}
  PVals = {1, 2}
  MVals = {}
  OVals = {101, 102}
  WithDelSpace = TRUE
  WithChild = FALSE
  OpenFindings = {}
  MaxOps = 99
  Dump = TRUE
VIEW ViewU
INIT Init
NEXT Next
INVARIANT Inv_C18_SpecsEqBoundValues
INVARIANT Inv_C18_NoOrphanSpec
INVARIANT Inv_C18_LocationsUnique
INVARIANT Inv_C18_RejectedLeavesNothing
INVARIANT Inv_C18_SanityChecks
INVARIANT Inv_C18_SavedSpecsRoundTrip
INVARIANT Inv_NoRepairedFinding
CHECK_DEADLOCK FALSE
