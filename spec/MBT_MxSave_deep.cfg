CONSTANTS
  MaxSaves = 5
  MaxLoads = 2
  NFiles = 2
  CleanupOnFail = TRUE
  Swallowed = FALSE
  MaxOps = 3
  Dump = TRUE
INIT MCInit
NEXT Next
CONSTRAINT Bound
INVARIANT Inv_C14_LastGoodSafe
CHECK_DEADLOCK FALSE
