CONSTANTS
  MaxOps = 4
  Keys = {0, 1}
  Dump = FALSE
INIT Init
NEXT Next
CONSTRAINT Bound
INVARIANT Inv_C07_InstanceFresh
INVARIANT Inv_C07_SameArgsSameInstance
INVARIANT Inv_C07_HandleDeadOrCurrent
INVARIANT Inv_C07_CallersFollow
CHECK_DEADLOCK FALSE
